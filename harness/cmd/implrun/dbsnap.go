package main

// C18 (snapshot) and C17 (coalesced concurrent queries) runners.

import (
	"context"
	"encoding/json"
	"fmt"
	"sync"
	"time"

	"github.com/getlantern/zenodb"
	"github.com/getlantern/zenodb/core"
)

func init() {
	register("dbsnap", runDBSnap)
	register("dbconc", runDBConc)
}

// ---------------- C18: a query observes the table as of a single instant ----------------

type jSnapCase struct {
	jDBCase
	During       []jPoint `json:"during"`      // points inserted while the scan is paused
	PauseAfter   int      `json:"pause_after"` // pause after this many delivered rows
	FlushInPause bool     `json:"flush_in_pause"`
}

func genSnapCase(e *Env) *jSnapCase {
	r := e.R
	c := &jSnapCase{}
	c.Table = genTable(r, map[string]bool{})
	c.Points = genDBPoints(r, &c.Table, 6+r.Intn(25))
	c.FlushAfter, _, c.FinalFlush = genSchedule(r, len(c.Points))
	c.Queries = []jQuery{{Mem: true}}
	// points inserted during the scan: same keys and periods as existing points (the in-place
	// update branch) as well as new periods / keys (the allocating branches)
	n := 1 + r.Intn(10)
	for i := 0; i < n; i++ {
		if r.Intn(3) > 0 && len(c.Points) > 0 {
			p := c.Points[r.Intn(len(c.Points))]
			q := jPoint{TS: p.TS, Dims: p.Dims, Vals: map[string]int64{}}
			for _, f := range []string{"a", "b", "c"} {
				q.Vals[f] = int64(100 + r.Intn(50))
			}
			c.During = append(c.During, q)
		} else {
			c.During = append(c.During, genDBPoints(r, &c.Table, 1)[0])
		}
	}
	c.PauseAfter = r.Intn(6)
	c.FlushInPause = r.Intn(2) == 0
	if r.Intn(3) == 0 && c.Table.GroupBy != nil {
		// interior nodes of the memstore's radix tree: a row whose key is a byte prefix of other keys
		// (the empty key: a point with none of the group-by dims) entered into the fresh memstore
		// before the others, and updated while the scan is paused
		last := -1
		for _, f := range c.FlushAfter {
			if f > last {
				last = f
			}
		}
		empty := genDBPoints(r, &c.Table, 1)[0]
		empty.Dims = map[string]jVal{}
		if len(empty.Vals) == 0 {
			empty.Vals = map[string]int64{"a": 3}
		}
		rest := append([]jPoint(nil), c.Points[last+1:]...)
		c.Points = append(append(append([]jPoint(nil), c.Points[:last+1]...), empty), rest...)
		c.Points = append(c.Points, genDBPoints(r, &c.Table, 2)...)
		c.FinalFlush = false
		upd := empty
		upd.Vals = map[string]int64{"a": 100, "b": 200, "c": 300}
		c.During = append(c.During, upd)
		c.PauseAfter = r.Intn(2)
	}
	return c
}

func loadHistory(db *zenodb.DB, c *jDBCase, e *Env) (int, error) {
	flushed := 0
	for i := range c.Points {
		p := &c.Points[i]
		if err := db.Insert("inbound", p.TS.T(), p.goDims(), p.goVals()); err != nil {
			return 0, err
		}
		if contains(c.FlushAfter, i) {
			if err := waitCaughtUp(db, "t", 0); err != nil {
				return 0, err
			}
			db.FlushAll()
			flushed = i + 1
		}
	}
	if err := waitCaughtUp(db, "t", 0); err != nil {
		return 0, err
	}
	if c.FinalFlush {
		db.FlushAll()
		flushed = len(c.Points)
	}
	return flushed, nil
}

func runSnapCase(e *Env, c *jSnapCase) error {
	e.Running(c)
	dir := tempDir()
	defer rmDir(dir)
	t := &c.Table
	db, err := openDB(dir, t, "t")
	if err != nil {
		return err
	}
	defer db.Close()
	flushed, err := loadHistory(db, &c.jDBCase, e)
	if err != nil {
		return err
	}
	now := db.VerifNow()
	src, err := db.Query(c.Queries[0].SQL("t", t.Conds), false, nil, true)
	if err != nil {
		return err
	}
	var rows []obsRow
	delivered := 0
	paused := false
	var pauseErr error
	_, err = src.Iterate(context.Background(), core.FieldsIgnored, func(r *core.FlatRow) (bool, error) {
		rows = append(rows, obsRow{TS: time.Unix(0, r.TS), Key: r.Key.AsMap(), Vals: append([]float64(nil), r.Values...)})
		delivered++
		if !paused && delivered > c.PauseAfter {
			paused = true
			for i := range c.During {
				p := &c.During[i]
				if ierr := db.Insert("inbound", p.TS.T(), p.goDims(), p.goVals()); ierr != nil {
					pauseErr = ierr
				}
			}
			if werr := waitCaughtUp(db, "t", 0); werr != nil {
				pauseErr = werr
			}
			if c.FlushInPause {
				db.FlushAll()
			}
		}
		return true, nil
	})
	if err != nil {
		return err
	}
	if pauseErr != nil {
		return pauseErr
	}
	if paused {
		e.Count("paused_mid_scan")
	} else {
		e.Count("scan_ended_before_pause")
	}
	results := []qResult{{flushed, &c.Queries[0], "", nil, rows, now}}
	g, err := galDBCase(t, c.Points, c.Queries, results)
	if err != nil {
		return err
	}
	c.NT = paused && len(rows) > c.PauseAfter+1
	e.Case(g, c)
	e.Add("rows", len(rows))
	e.Add("during", len(c.During))
	return nil
}

func runDBSnap(e *Env) error {
	e.Header("From Coq Require Import QArith.\nFrom Zeno Require Import Base Sort Expr DB.", "db_case")
	if lines := e.ReplayLines(); lines != nil {
		for _, l := range lines {
			var c jSnapCase
			if err := json.Unmarshal([]byte(l), &c); err != nil {
				return err
			}
			if err := runSnapCase(e, &c); err != nil {
				return err
			}
		}
	} else {
		for i := 0; i < e.N; i++ {
			c := genSnapCase(e)
			if err := runSnapCase(e, c); err != nil {
				b, _ := json.Marshal(c)
				return fmt.Errorf("%v on case %s", err, b)
			}
		}
	}
	e.Footer("db_mismatches")
	return nil
}

// ---------------- C17: coalesced concurrent queries ----------------

type jConcCase struct {
	jDBCase
	DeadlineMS []int `json:"deadline_ms"` // per query: 0 = none, otherwise a deadline
	SleepMS    []int `json:"sleep_ms"`    // per query: its row callback sleeps this long per row
	FailAfter  []int `json:"fail_after"`  // per query: its row callback fails after this many rows (-1 = never)
	Staggered  bool  `json:"staggered"`   // start outside the coalesce window instead of together
	GapMS      int   `json:"gap_ms,omitempty"` // > 0: query i starts i*GapMS after the first (inside the coalesce window): the arrival order is the index order
}

func genConcCase(e *Env) *jConcCase {
	r := e.R
	c := &jConcCase{}
	c.Table = genTable(r, map[string]bool{})
	c.Points = genDBPoints(r, &c.Table, 8+r.Intn(25))
	c.FlushAfter, _, c.FinalFlush = genSchedule(r, len(c.Points))
	n := 2 + r.Intn(5)
	for i := 0; i < n; i++ {
		var q jQuery
		switch r.Intn(4) {
		case 0:
			q = jQuery{Mem: true}
		case 1:
			q = genSubsetQuery(r, &c.Table, true)
		case 2:
			q = genGroupQuery(r, &c.Table, r.Intn(2) == 0)
		case 3:
			q = genGroupQuery(r, &c.Table, true)
			ns := baseSec*int64(time.Second) + int64(2+r.Intn(8))*c.Table.ResNS
			q.HasAsOf, q.HasUntil = true, true
			q.AsOf = XTime{S: baseSec - 10*c.Table.ResNS/int64(time.Second)}
			q.Until = XTime{S: ns / int64(time.Second), NS: ns % int64(time.Second)}
		}
		q.Mem = r.Intn(3) > 0
		if r.Intn(4) == 0 {
			q.HasLimit = true
			q.Limit = 1 + r.Intn(3)
		}
		c.Queries = append(c.Queries, q)
		d := 0
		if r.Intn(3) == 0 {
			d = 5000 + r.Intn(5000)
		}
		c.DeadlineMS = append(c.DeadlineMS, d)
		c.SleepMS = append(c.SleepMS, 0)
		c.FailAfter = append(c.FailAfter, -1)
	}
	c.Staggered = r.Intn(5) == 0
	if !c.Staggered && r.Intn(3) == 0 {
		// a member that arrived first leaves the shared scan early (LIMIT directly on the scan), a member that arrived later
		// fails on a later row, the others run to the end
		first := jQuery{Mem: c.Queries[0].Mem, HasLimit: true, Limit: 1 + r.Intn(2)}
		adv := jQuery{Mem: c.Queries[0].Mem}
		for i := range c.Queries {
			c.Queries[i].Mem = first.Mem // one coalesced group
		}
		at := 1 + r.Intn(len(c.Queries))
		qs := append([]jQuery{first}, c.Queries[:at-1]...)
		qs = append(qs, adv)
		qs = append(qs, c.Queries[at-1:]...)
		dl := append([]int{0}, c.DeadlineMS[:at-1]...)
		dl = append(dl, 0)
		dl = append(dl, c.DeadlineMS[at-1:]...)
		c.Queries, c.DeadlineMS = qs, dl
		c.SleepMS = make([]int, len(qs))
		c.FailAfter = make([]int, len(qs))
		for i := range c.FailAfter {
			c.FailAfter[i] = -1
		}
		c.FailAfter[at] = 3 + r.Intn(6)
		c.GapMS = 6
		return c
	}
	if !c.Staggered {
		switch r.Intn(4) {
		case 0:
			// an adversary whose deadline expires mid-scan, next to a slow deadline-free query
			c.Queries = append(c.Queries, jQuery{Mem: c.Queries[0].Mem}, jQuery{Mem: c.Queries[0].Mem})
			c.DeadlineMS = append(c.DeadlineMS, 250, 0)
			c.SleepMS = append(c.SleepMS, 0, 60)
			c.FailAfter = append(c.FailAfter, -1, -1)
		case 1:
			// an adversary whose row callback fails after its first row
			c.Queries = append(c.Queries, jQuery{Mem: c.Queries[0].Mem})
			c.DeadlineMS = append(c.DeadlineMS, 0)
			c.SleepMS = append(c.SleepMS, 0)
			c.FailAfter = append(c.FailAfter, 1)
		}
	}
	return c
}

func runConcCase(e *Env, c *jConcCase) error {
	e.Running(c)
	dir := tempDir()
	defer rmDir(dir)
	t := &c.Table
	coalesce := 150 * time.Millisecond
	db, err := zenodb.NewDB(&zenodb.DBOpts{Dir: dir, VirtualTime: true, IterationCoalesceInterval: coalesce, Panic: func(e interface{}) {
		quietPanic(e)
	}})
	if err != nil {
		return err
	}
	defer db.Close()
	if err := db.ApplySchema(zenodb.Schema{"t": &zenodb.TableOpts{MinFlushLatency: time.Hour, MaxFlushLatency: 2 * time.Hour,
		RetentionPeriod: time.Duration(t.RetNS), SQL: t.SQL()}}); err != nil {
		return err
	}
	flushed, err := loadHistory(db, &c.jDBCase, e)
	if err != nil {
		return err
	}
	now := db.VerifNow()
	results := make([]qResult, len(c.Queries))
	var wg sync.WaitGroup
	for i := range c.Queries {
		wg.Add(1)
		go func(i int) {
			defer wg.Done()
			if c.Staggered {
				time.Sleep(time.Duration(i) * (coalesce + 60*time.Millisecond))
			} else if c.GapMS > 0 {
				time.Sleep(time.Duration(i*c.GapMS) * time.Millisecond)
			}
			q := &c.Queries[i]
			s := q.SQL("t", t.Conds)
			ctx := context.Background()
			if c.DeadlineMS[i] > 0 {
				var cancel context.CancelFunc
				ctx, cancel = context.WithTimeout(ctx, time.Duration(c.DeadlineMS[i])*time.Millisecond)
				defer cancel()
			}
			rows, err := runQueryHooked(ctx, db, s, q.Mem, time.Duration(c.SleepMS[i])*time.Millisecond, c.FailAfter[i])
			results[i] = qResult{flushed, q, s, err, rows, now}
		}(i)
	}
	wg.Wait()
	// LIMIT without ORDER BY returns "any n rows": compare such queries through their unlimited form
	// by checking the returned rows are a sub-multiset; the model check handles that via q_limit
	// adversaries (failing callback, short deadline) are not compared; every other query must
	// return exactly what it returns alone
	var cmpQ []jQuery
	var cmpR []qResult
	for i := range c.Queries {
		if c.FailAfter[i] >= 0 || (c.DeadlineMS[i] > 0 && c.DeadlineMS[i] < 1000) {
			e.Count("adversaries")
			continue
		}
		cmpQ = append(cmpQ, c.Queries[i])
		cmpR = append(cmpR, results[i])
	}
	g, err := galDBCase(t, c.Points, cmpQ, cmpR)
	if err != nil {
		return err
	}
	maxGroup := db.VerifCounter("t", "coalesced_max")
	c.NT = maxGroup >= 2
	e.Case(g, c)
	e.Count(fmt.Sprintf("max_group=%d", maxGroup))
	e.Add("queries", len(c.Queries))
	for _, r := range results {
		if r.err != nil {
			msg := r.err.Error()
			if len(msg) > 60 {
				msg = msg[:60]
			}
			e.Count("err: " + msg)
		}
	}
	return nil
}

func runDBConc(e *Env) error {
	e.Header("From Coq Require Import QArith.\nFrom Zeno Require Import Base Sort Expr DB.", "db_case")
	if lines := e.ReplayLines(); lines != nil {
		for _, l := range lines {
			var c jConcCase
			if err := json.Unmarshal([]byte(l), &c); err != nil {
				return err
			}
			if err := runConcCase(e, &c); err != nil {
				return err
			}
		}
	} else {
		for i := 0; i < e.N; i++ {
			c := genConcCase(e)
			if err := runConcCase(e, c); err != nil {
				b, _ := json.Marshal(c)
				return fmt.Errorf("%v on case %s", err, b)
			}
		}
	}
	e.Footer("db_mismatches")
	return nil
}

func runQueryHooked(ctx context.Context, db *zenodb.DB, sqlStr string, mem bool, sleep time.Duration, failAfter int) (rows []obsRow, err error) {
	src, err := db.Query(sqlStr, false, nil, mem)
	if err != nil {
		return nil, err
	}
	n := 0
	_, err = src.Iterate(ctx, core.FieldsIgnored, func(r *core.FlatRow) (bool, error) {
		rows = append(rows, obsRow{TS: time.Unix(0, r.TS), Key: r.Key.AsMap(), Vals: append([]float64(nil), r.Values...)})
		n++
		if sleep > 0 {
			time.Sleep(sleep)
		}
		if failAfter >= 0 && n >= failAfter {
			return false, fmt.Errorf("callback failed on purpose")
		}
		return true, nil
	})
	return rows, err
}
