package main

import (
	"context"
	"encoding/binary"
	"encoding/json"
	"fmt"
	"io"
	"io/ioutil"
	"os"
	"path/filepath"
	"sort"
	"strings"
	"time"

	"github.com/getlantern/bytemap"
	"github.com/getlantern/zenodb/core"
	"github.com/golang/snappy"
)

// Stage `rowfile` (C03): the bytes of a real file store, after its header, read by the model's decoder of the row format.

func init() { register("rowfile", runRowFile) }

type jRowFileCase struct {
	jDBCase
	NT bool `json:"nt"`
}

func runRowFileCase(e *Env, c *jRowFileCase) error {
	e.Running(c)
	dir := tempDir()
	defer rmDir(dir)
	t := &c.Table
	db, err := openDB(dir, t, "t")
	if err != nil {
		return err
	}
	closed := false
	defer func() {
		if !closed {
			db.Close()
		}
	}()
	if _, err := loadHistory(db, &c.jDBCase, e); err != nil {
		return err
	}
	db.FlushAll()
	// the keys a disk-only scan reports (raw bytes)
	src, err := db.Query("SELECT * FROM t", false, nil, false)
	if err != nil {
		return err
	}
	seen := map[string]bool{}
	var keys []string
	_, err = src.Iterate(context.Background(), core.FieldsIgnored, func(r *core.FlatRow) (bool, error) {
		k := string(bytemap.ByteMap(r.Key))
		if !seen[k] {
			seen[k] = true
			keys = append(keys, k)
		}
		return true, nil
	})
	if err != nil {
		return err
	}
	db.Close()
	closed = true
	files, _ := filepath.Glob(filepath.Join(dir, "t", "filestore_*.dat"))
	if len(files) == 0 {
		e.Count("no_file")
		return nil
	}
	sort.Strings(files)
	f, err := os.Open(files[len(files)-1])
	if err != nil {
		return err
	}
	defer f.Close()
	r := snappy.NewReader(f)
	var headerLength uint32
	if err := binary.Read(r, binary.BigEndian, &headerLength); err != nil {
		return err
	}
	if _, err := io.CopyN(ioutil.Discard, r, int64(headerLength)); err != nil {
		return err
	}
	rest, err := ioutil.ReadAll(r)
	if err != nil {
		return err
	}
	if len(rest) > 60000 {
		e.Count("file_too_large_skipped")
		return nil
	}
	gk := make([]string, len(keys))
	for i, k := range keys {
		gk[i] = gstr(k)
	}
	c.NT = len(keys) >= 2
	e.Case(fmt.Sprintf("{| rc_file := %s; rc_keys := %s; rc_ncols := %d |}", gstr(string(rest)), glist(gk), len(t.Fields)+1), c)
	e.Add("file_bytes", len(rest))
	e.Add("rows", len(keys))
	return nil
}

func runRowFile(e *Env) error {
	e.Header("From Zeno Require Import Base RowCodec CorrRow.", "row_case")
	if lines := e.ReplayLines(); lines != nil {
		for _, l := range lines {
			var c jRowFileCase
			if err := json.Unmarshal([]byte(l), &c); err != nil {
				return err
			}
			if err := runRowFileCase(e, &c); err != nil {
				return err
			}
		}
	} else {
		for i := 0; i < e.N; i++ {
			c := &jRowFileCase{}
			c.Table = genTable(e.R, map[string]bool{})
			c.Table.RetNS = c.Table.ResNS * 100000
			c.Points = genDBPoints(e.R, &c.Table, 3+e.R.Intn(12))
			if e.R.Intn(2) == 0 {
				c.FlushAfter = []int{len(c.Points) / 2}
			}
			if err := runRowFileCase(e, c); err != nil {
				return err
			}
		}
	}
	e.Footer("row_mismatches")
	return nil
}

var _ = strings.TrimSpace
var _ = time.Second
