package main

// C19: data-disclosing endpoints refuse callers without valid credentials.
// Exhaustive lattice over the real gRPC server (mock DB behind it) and the real web handler.

import (
	"bytes"
	"context"
	"errors"
	"fmt"
	"io/ioutil"
	"net"
	"net/http"
	"net/http/httptest"
	"strings"
	"sync"
	"time"

	"github.com/getlantern/bytemap"
	"github.com/getlantern/wal"
	"github.com/getlantern/zenodb"
	"github.com/getlantern/zenodb/common"
	"github.com/getlantern/zenodb/core"
	"github.com/getlantern/zenodb/planner"
	"github.com/getlantern/zenodb/rpc"
	rpcserver "github.com/getlantern/zenodb/rpc/server"
	"github.com/getlantern/zenodb/web"
	"github.com/gorilla/mux"
	"github.com/gorilla/securecookie"
)

func init() { register("c19", runC19) }

type mockDB struct {
	mx    sync.Mutex
	calls map[string]int
}

func (m *mockDB) hit(n string) {
	m.mx.Lock()
	m.calls[n]++
	m.mx.Unlock()
}
func (m *mockDB) count(n string) int {
	m.mx.Lock()
	defer m.mx.Unlock()
	return m.calls[n]
}
func (m *mockDB) InsertRaw(stream string, ts time.Time, dims bytemap.ByteMap, vals bytemap.ByteMap) error {
	m.hit("InsertRaw")
	return nil
}
func (m *mockDB) Query(sqlString string, isSubQuery bool, subQueryResults [][]interface{}, includeMemStore bool) (core.FlatRowSource, error) {
	m.hit("Query")
	return nil, errors.New("mock db")
}
func (m *mockDB) Follow(f *common.Follow, cb func([]byte, wal.Offset) error) { m.hit("Follow") }
func (m *mockDB) RegisterQueryHandler(partition int, query planner.QueryClusterFN) {
	m.hit("RegisterQueryHandler")
}

type jAuthCase struct {
	Kind string `json:"kind"`
	Desc string `json:"desc"`
	NT   bool   `json:"nt"`
}

func gstring(s string) string { return "\"" + s + "\"" }

func runC19RPC(e *Env) error {
	for _, serverPw := range []string{"", "secret"} {
		// none, unrelated, the right one, and near misses of the right one: with a suffix, a proper prefix, another case, something prepended
		for _, clientPw := range []string{"", "wrong", "secret", "secret1", "secret ", "secre", "Secret", "xsecret"} {
			for _, handler := range []string{"Insert", "Query", "Follow", "HandleRemoteQueries"} {
				db := &mockDB{calls: map[string]int{}}
				l, err := net.Listen("tcp", "127.0.0.1:0")
				if err != nil {
					return err
				}
				serve, stop := rpcserver.PrepareServer(db, l, &rpcserver.Opts{ID: 1, Password: serverPw})
				go serve()
				client, err := rpc.Dial(l.Addr().String(), &rpc.ClientOpts{Password: clientPw})
				if err != nil {
					stop()
					return err
				}
				ctx, cancel := context.WithTimeout(context.Background(), 3*time.Second)
				method := ""
				switch handler {
				case "Insert":
					method = "InsertRaw"
					ins, ierr := client.NewInserter(ctx, "inbound")
					if ierr == nil {
						ins.Insert(time.Now(), map[string]interface{}{"d": "x"}, func(cb func(string, interface{})) { cb("a", float64(1)) })
						ins.Close()
					}
				case "Query":
					method = "Query"
					client.Query(ctx, "SELECT * FROM t", true)
				case "Follow":
					method = "Follow"
					client.Follow(ctx, &common.Follow{FollowerID: common.FollowerID{Partition: 0, ID: 1}, Stream: "inbound", EarliestOffset: nil})
				case "HandleRemoteQueries":
					method = "RegisterQueryHandler"
					client.ProcessRemoteQuery(ctx, 0, func(ctx context.Context, sqlString string, isSubQuery bool, subQueryResults [][]interface{}, unflat bool, onFields core.OnFields, onRow core.OnRow, onFlatRow core.OnFlatRow) (interface{}, error) {
						return nil, nil
					}, 400*time.Millisecond)
				}
				// give the server goroutine a moment to reach (or not reach) the DB
				time.Sleep(50 * time.Millisecond)
				served := db.count(method) > 0
				cancel()
				client.Close()
				stop()
				presented := "[]"
				if clientPw != "" {
					presented = "[" + gstring(clientPw) + "]"
				}
				g := fmt.Sprintf("RpcCase %s %s %s %s", gstring(handler), gstring(serverPw), presented, gbool(served))
				e.Case(g, &jAuthCase{Kind: "rpc", Desc: fmt.Sprintf("handler=%s serverPw=%q clientPw=%q served=%v", handler, serverPw, clientPw, served), NT: serverPw != ""})
				if served {
					e.Count("rpc_served")
				} else {
					e.Count("rpc_refused")
				}
			}
		}
	}
	return nil
}

type stubGitHub struct{}

func (stubGitHub) RoundTrip(req *http.Request) (*http.Response, error) {
	mk := func(code int, body string) *http.Response {
		return &http.Response{StatusCode: code, Body: ioutil.NopCloser(bytes.NewBufferString(body)), Header: http.Header{}, Request: req}
	}
	if req.URL.Host == "api.github.com" {
		tok := strings.TrimPrefix(req.Header.Get("Authorization"), "token ")
		switch tok {
		case "member":
			return mk(200, `[{"login":"theorg"}]`), nil
		case "nonmember":
			return mk(200, `[{"login":"other"}]`), nil
		default:
			return mk(500, `boom`), nil
		}
	}
	return mk(404, "stub"), nil
}

func runC19Web(e *Env) error {
	http.DefaultTransport = stubGitHub{} // the handler's http.Client uses the default transport
	hashKey := strings.Repeat("h", 64)
	blockKey := strings.Repeat("b", 32)
	sc := securecookie.New([]byte(hashKey), []byte(blockKey))
	scOther := securecookie.New([]byte(strings.Repeat("x", 64)), []byte(strings.Repeat("y", 32)))
	now := time.Now()
	type ck struct {
		name, value, gal string
	}
	enc := func(s *securecookie.SecureCookie, tok string, exp time.Time) string {
		v, err := s.Encode("authcookie", &web.AuthData{AccessToken: tok, Expiration: exp})
		if err != nil {
			panic(err)
		}
		return v
	}
	future, past := now.Add(time.Hour), now.Add(-time.Hour)
	cookies := []ck{
		{"absent", "", "CAbsent"},
		{"garbage", "notacookie", "CUndecodable"},
		{"forged", enc(scOther, "member", future), "CUndecodable"},
		{"future-member", enc(sc, "member", future), fmt.Sprintf("(CSession %d InOrg)", future.Unix())},
		{"future-nonmember", enc(sc, "nonmember", future), fmt.Sprintf("(CSession %d NotInOrg)", future.Unix())},
		{"future-orgerror", enc(sc, "error", future), fmt.Sprintf("(CSession %d OrgError)", future.Unix())},
		{"past-member", enc(sc, "member", past), fmt.Sprintf("(CSession %d InOrg)", past.Unix())},
	}
	routes := []struct{ path, pattern string }{
		{"/run?SELECT%20*%20FROM%20t", "/run"}, {"/async?SELECT%20*%20FROM%20t", "/async"},
		{"/immediate?SELECT%20*%20FROM%20t", "/immediate"}, {"/cached/00000000-0000-0000-0000-000000000000", "/cached/{permalink}"},
	}
	type result struct {
		gal  string
		desc string
		nt   bool
	}
	for _, oauth := range []bool{false, true} {
		for _, pw := range []string{"", "tok"} {
			dir := tempDir()
			db, err := zenodb.NewDB(&zenodb.DBOpts{Dir: dir + "/db", VirtualTime: true, IterationCoalesceInterval: time.Millisecond, Panic: quietPanic})
			if err != nil {
				return err
			}
			if err := db.ApplySchema(zenodb.Schema{"t": &zenodb.TableOpts{RetentionPeriod: time.Hour, MinFlushLatency: time.Hour, MaxFlushLatency: 2 * time.Hour,
				SQL: "SELECT SUM(a) AS a FROM inbound GROUP BY *, period(1s)"}}); err != nil {
				return err
			}
			db.Insert("inbound", time.Unix(baseSec, 0), map[string]interface{}{"d": "x"}, map[string]interface{}{"a": float64(1)})
			waitCaughtUp(db, "t", 0)
			db.FlushAll()
			router := mux.NewRouter()
			opts := &web.Opts{HashKey: hashKey, BlockKey: blockKey, CacheDir: dir + "/cache", Password: pw, QueryTimeout: 10 * time.Second, GitHubOrg: "theorg"}
			if oauth {
				opts.OAuthClientID, opts.OAuthClientSecret = "id", "secret"
			}
			stopWeb, err := web.Configure(db, router, opts)
			if err != nil {
				return err
			}
			srv := httptest.NewServer(router)
			client := &http.Client{Transport: &http.Transport{}, Timeout: 60 * time.Second,
				CheckRedirect: func(req *http.Request, via []*http.Request) error { return http.ErrUseLastResponse }}
			var wg sync.WaitGroup
			var mx sync.Mutex
			var results []result
			for _, header := range []string{"", "wrong", "tok", "tok1", "to", "Tok", "xtok"} {
				for _, c := range cookies {
					for _, rt := range routes {
						wg.Add(1)
						go func(header string, c ck, path, pattern string) {
							defer wg.Done()
							req, _ := http.NewRequest("GET", srv.URL+path, nil)
							if header != "" {
								req.Header.Set("X-Zeno-Auth-Token", header)
							}
							if c.value != "" {
								req.AddCookie(&http.Cookie{Name: "authcookie", Value: c.value})
							}
							resp, rerr := client.Do(req)
							served := false
							status := 0
							if rerr == nil {
								status = resp.StatusCode
								ioutil.ReadAll(resp.Body)
								resp.Body.Close()
								served = status != http.StatusTemporaryRedirect && status != http.StatusForbidden
							}
							g := fmt.Sprintf("WebCase %s {| w_oauth := %s; w_password := %s |} %s %s %d %s",
								gstring(pattern), gbool(oauth), gstring(pw), gstring(header), c.gal, now.Unix(), gbool(served))
							mx.Lock()
							results = append(results, result{g, fmt.Sprintf("route=%s oauth=%v pw=%q header=%q cookie=%s status=%d served=%v", pattern, oauth, pw, header, c.name, status, served), oauth})
							mx.Unlock()
						}(header, c, rt.path, rt.pattern)
					}
				}
			}
			wg.Wait()
			srv.Close()
			stopWeb()
			db.Close()
			rmDir(dir)
			for _, r := range results {
				e.Case(r.gal, &jAuthCase{Kind: "web", Desc: r.desc, NT: r.nt})
				if strings.HasSuffix(r.desc, "served=true") {
					e.Count("web_served")
				} else {
					e.Count("web_refused")
				}
			}
		}
	}
	return nil
}

func runC19(e *Env) error {
	fmt.Fprintf(e.v, "From Coq Require Import String.\nFrom Zeno Require Import Base Auth Facts.\nOpen Scope string_scope.\nOpen Scope Z_scope.\nDefinition cases : list auth_case := [\n")
	if err := runC19RPC(e); err != nil {
		return err
	}
	if err := runC19Web(e); err != nil {
		return err
	}
	fmt.Fprintf(e.v, "\n].\nDefinition M := Eval vm_compute in (failing (map (auth_case_ok gen_rpc_handlers gen_web_routes) cases)).\nPrint M.\n")
	return nil
}
