package main

// C15: altering a table keeps the stored values of every retained field.

import (
	"encoding/json"
	"fmt"
	"strings"
	"time"

	"github.com/getlantern/goexpr"
	"github.com/getlantern/zenodb"
)

func init() { register("dbalt", runDBAlt) }

type jAltOp struct {
	Kind   string   `json:"kind"` // ins flush reopen alter
	P      *jPoint  `json:"p,omitempty"`
	Fields []jField `json:"fields,omitempty"`
	Where  *XPred   `json:"where,omitempty"`
	HasW   bool     `json:"has_where,omitempty"`
}

type jAltCase struct {
	Table   jTable   `json:"table"`
	Ops     []jAltOp `json:"ops"`
	Queries []int    `json:"queries"` // run SELECT * after this many ops
	NT      bool     `json:"nt"`
}

func fieldNum(name string) int64 {
	var n int64
	fmt.Sscanf(name, "f%d", &n)
	return n
}

func genAltCase(e *Env) *jAltCase {
	r := e.R
	c := &jAltCase{}
	c.Table = genTable(r, map[string]bool{})
	t := &c.Table
	t.RetNS = t.ResNS * 1000
	nconds := len(t.Conds)
	g := &exprGen{r: r, fields: []string{"a", "b", "c"}, allowIf: nconds > 0, allowDiv: true, nconds: nconds, noConstOperand: true, sqlSafe: true, noConstAgg: true}
	cur := append([]jField(nil), t.Fields...)
	next := len(cur) + 1
	var dropped []jField
	n := 12 + r.Intn(30)
	for i := 0; i < n; i++ {
		switch k := r.Intn(12); {
		case k == 0:
			c.Ops = append(c.Ops, jAltOp{Kind: "flush"})
		case k == 1 && r.Intn(2) == 0:
			c.Ops = append(c.Ops, jAltOp{Kind: "reopen"})
		case k == 2 || k == 3:
			// new definition: drop some fields, add fresh ones, permute; sometimes a new WHERE
			var nf []jField
			redefined := false
			for _, f := range cur {
				if r.Intn(4) > 0 {
					if r.Intn(5) == 0 {
						// the name stays (and mostly the position), the expression changes: a removal plus an addition
						f = jField{Name: f.Name, E: g.gen(r.Intn(3), false)}
						redefined = true
					}
					nf = append(nf, f)
				} else if r.Intn(2) == 0 {
					// its place is taken by a new definition of the same name
					nf = append(nf, jField{Name: f.Name, E: g.gen(r.Intn(3), false)})
					redefined = true
				}
			}
			var nowDropped []jField
			for _, f := range cur {
				kept := false
				for _, k := range nf {
					if k.Name == f.Name {
						kept = true
					}
				}
				if !kept {
					nowDropped = append(nowDropped, f)
				}
			}
			pool := append(append([]jField(nil), dropped...), nowDropped...)
			_ = pool
			for r.Intn(2) == 0 || len(nf) == 0 {
				if len(dropped) > 0 && r.Intn(3) == 0 {
					// re-add a field that was dropped earlier: it must start empty again
					d := dropped[r.Intn(len(dropped))]
					dup := false
					for _, k := range nf {
						if k.Name == d.Name {
							dup = true
						}
					}
					if !dup {
						nf = append(nf, d)
					}
					continue
				}
				nf = append(nf, jField{Name: fmt.Sprintf("f%d", next), E: g.gen(r.Intn(3), false)})
				next++
			}
			if !redefined || r.Intn(3) == 0 {
				r.Shuffle(len(nf), func(a, b int) { nf[a], nf[b] = nf[b], nf[a] })
			}
			tmp := jTable{Fields: nf}
			if stringCollision(&tmp) {
				continue
			}
			op := jAltOp{Kind: "alter", Fields: nf}
			if r.Intn(3) == 0 {
				op.Kind = "realter" // the new definition is applied by restarting the database with it
			}
			if r.Intn(3) == 0 {
				op.HasW = true
				if r.Intn(4) > 0 {
					op.Where = genPred(r, 1)
				}
			}
			// bookkeeping of dropped fields only once the alteration is really part of the history
			var still []jField
			for _, d := range append(dropped, nowDropped...) {
				present := false
				for _, k := range nf {
					if k.Name == d.Name {
						present = true
					}
				}
				if !present {
					still = append(still, d)
				}
			}
			dropped = still
			cur = nf
			c.Ops = append(c.Ops, op)
			if r.Intn(2) == 0 {
				c.Queries = append(c.Queries, len(c.Ops))
			}
			if op.Kind == "realter" && r.Intn(2) == 0 {
				// a flush right after the restart, while most keys have no new data in memory
				if r.Intn(2) == 0 {
					p := genDBPoints(r, t, 1)[0]
					c.Ops = append(c.Ops, jAltOp{Kind: "ins", P: &p})
				}
				c.Ops = append(c.Ops, jAltOp{Kind: "flush"})
				c.Queries = append(c.Queries, len(c.Ops))
			}
		default:
			p := genDBPoints(r, t, 1)[0]
			c.Ops = append(c.Ops, jAltOp{Kind: "ins", P: &p})
		}
	}
	c.Queries = append(c.Queries, len(c.Ops))
	return c
}

func runAltCase(e *Env, c *jAltCase) error {
	e.Running(c)
	dir := tempDir()
	defer rmDir(dir)
	t := c.Table // current definition (copy)
	db, err := openDB(dir, &t, "t")
	if err != nil {
		return err
	}
	closed := false
	defer func() {
		if !closed {
			db.Close()
		}
	}()
	// WHERE versions: index 0 = initial
	wheres := []*XPred{t.Where}
	whereIdx := 0
	type altRun struct {
		upto int
		err  error
		rows []obsRow
	}
	var runs []altRun
	var opsGal []string
	doQueries := func(upto int) error {
		for _, q := range c.Queries {
			if q != upto {
				continue
			}
			if err := waitCaughtUp(db, "t", 0); err != nil {
				return err
			}
			_, rows, qerr := runQuery(db, "SELECT * FROM t", true)
			runs = append(runs, altRun{upto, qerr, rows})
		}
		return nil
	}
	type pendingPoint struct{ p *jPoint }
	var points []*jPoint
	alters := 0
	for i, op := range c.Ops {
		if err := doQueries(i); err != nil {
			return err
		}
		switch op.Kind {
		case "ins":
			if err := db.Insert("inbound", op.P.TS.T(), op.P.goDims(), op.P.goVals()); err != nil {
				return err
			}
			points = append(points, op.P)
			opsGal = append(opsGal, fmt.Sprintf("AIns @P%d@", len(points)-1))
		case "flush":
			if err := waitCaughtUp(db, "t", 0); err != nil {
				return err
			}
			db.FlushAll()
			opsGal = append(opsGal, "AFlush")
		case "reopen":
			if err := waitCaughtUp(db, "t", 0); err != nil {
				return err
			}
			now := db.VerifNow()
			db.Close()
			db, err = openDB(dir, &t, "t")
			if err != nil {
				return fmt.Errorf("reopen: %v", err)
			}
			db.VerifAdvanceClock(now)
			opsGal = append(opsGal, "AReopen")
		case "alter", "realter":
			if err := waitCaughtUp(db, "t", 0); err != nil {
				return err
			}
			var clockBefore time.Time
			if op.Kind == "realter" {
				clockBefore = db.VerifNow()
				db.Close()
			}
			t.Fields = op.Fields
			if op.HasW {
				t.Where = op.Where
				wheres = append(wheres, op.Where)
				whereIdx = len(wheres) - 1
			}
			if op.Kind == "realter" {
				db, err = openDB(dir, &t, "t")
				if err != nil {
					return fmt.Errorf("reopen with new definition %q: %v", t.SQL(), err)
				}
				db.VerifAdvanceClock(clockBefore)
				e.Count("alter_across_restart")
			} else if err := db.ApplySchema(zenodb.Schema{"t": &zenodb.TableOpts{MinFlushLatency: time.Hour, MaxFlushLatency: 2 * time.Hour,
				RetentionPeriod: time.Duration(t.RetNS), SQL: t.SQL()}}); err != nil {
				return fmt.Errorf("alter to %q: %v", t.SQL(), err)
			}
			alters++
			fs := make([]string, len(op.Fields))
			for j, f := range op.Fields {
				fs[j] = fmt.Sprintf("(%d, %s)", fieldNum(f.Name), f.E.Gal())
			}
			w := "None"
			if wheres[whereIdx] != nil {
				w = fmt.Sprintf("(Some %d%%nat)", whereIdx)
			}
			opsGal = append(opsGal, fmt.Sprintf("AAlter %s %s", glist(fs), w))
		}
	}
	if err := doQueries(len(c.Ops)); err != nil {
		return err
	}
	db.Close()
	closed = true

	// oracle columns: every WHERE version and every IF condition on every point
	whereEx := make([]goexpr.Expr, len(wheres))
	for i, w := range wheres {
		if w != nil {
			if whereEx[i], err = w.compile(); err != nil {
				return err
			}
		}
	}
	condEx := make([]goexpr.Expr, len(c.Table.Conds))
	for i, cd := range c.Table.Conds {
		if condEx[i], err = cd.compile(); err != nil {
			return err
		}
	}
	for i, p := range points {
		dims := dimsBytemap(p)
		flags := make([]string, len(whereEx))
		for j, w := range whereEx {
			flags[j] = gbool(w == nil || evalPred(w, dims))
		}
		var vals []string
		nv := p.numVals()
		if len(nv) > 0 {
			vals = append(vals, "(9, 1)")
		}
		for _, f := range []string{"a", "b", "c", "x"} {
			if v, ok := nv[f]; ok {
				vals = append(vals, fmt.Sprintf("(%d, %s)", fieldID(f), gz(v)))
			}
		}
		conds := make([]string, len(condEx))
		for j, ce := range condEx {
			conds[j] = gbool(evalPred(ce, dims))
		}
		pg := fmt.Sprintf("{| tp_ts := %s; tp_dims := %s; tp_pt := {| p_vals := %s; p_md := %s |}; tp_flags := %s |}",
			gtime(p.TS.T()), galDims(p), glist(vals), glist(conds), glist(flags))
		for j := range opsGal {
			opsGal[j] = strings.Replace(opsGal[j], fmt.Sprintf("@P%d@", i), pg, 1)
		}
	}
	f0 := make([]string, len(c.Table.Fields))
	for j, f := range c.Table.Fields {
		f0[j] = fmt.Sprintf("(%d, %s)", fieldNum(f.Name), f.E.Gal())
	}
	w0 := "None"
	if c.Table.Where != nil {
		w0 = "(Some 0%nat)"
	}
	rg := make([]string, len(runs))
	for i, r := range runs {
		rg[i] = fmt.Sprintf("{| ar_upto := %d%%nat; ar_err := %s; ar_rows := %s |}", r.upto, gbool(r.err != nil), galORows(r.rows))
		e.Add("rows", len(r.rows))
		if r.err != nil {
			e.Count("err: " + r.err.Error())
		}
	}
	g := fmt.Sprintf("{| ac_fields := %s; ac_where := %s; ac_groupby := %s; ac_res := %s;\n   ac_ops := [%s];\n   ac_runs := [%s] |}",
		glist(f0), w0, galTableKeyProj(c.Table.GroupBy), gz(c.Table.ResNS), strings.Join(opsGal, ";\n     "), strings.Join(rg, ";\n     "))
	c.NT = alters >= 1 && len(points) >= 3
	e.Case(g, c)
	e.Add("alters", alters)
	e.Add("points", len(points))
	return nil
}

func runDBAlt(e *Env) error {
	e.Header("From Coq Require Import QArith.\nFrom Zeno Require Import Base Sort Expr DB Alter.", "alt_case")
	if lines := e.ReplayLines(); lines != nil {
		for _, l := range lines {
			var c jAltCase
			if err := json.Unmarshal([]byte(l), &c); err != nil {
				return err
			}
			if err := runAltCase(e, &c); err != nil {
				return err
			}
		}
	} else {
		for i := 0; i < e.N; i++ {
			c := genAltCase(e)
			if err := runAltCase(e, c); err != nil {
				b, _ := json.Marshal(c)
				return fmt.Errorf("%v on case %s", err, b)
			}
		}
	}
	e.Footer("alt_mismatches")
	return nil
}
