module zenoverif

go 1.12

require (
	github.com/getlantern/bytemap v0.0.0-20210122162547-b07440a617f0
	github.com/getlantern/goexpr v0.0.0-20211215215226-4cdd4fd2847b
	github.com/getlantern/golog v0.0.0-20210606115803-bce9f9fe5a5f
	github.com/getlantern/wal v0.0.0-20220217194315-e4eac848dbd1
	github.com/getlantern/zenodb v0.0.0
	github.com/golang/snappy v0.0.3
	github.com/gorilla/mux v1.7.1
	github.com/gorilla/securecookie v1.1.1
)

replace github.com/getlantern/zenodb => /repo
